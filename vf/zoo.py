"""Factories: algorithms x spaces x configs, batches in the format each learn() expects, probes."""

from __future__ import annotations

import copy
from typing import Any, Dict, List, Optional, Tuple

import numpy as np
import torch
from gymnasium import spaces

SINGLE = ["DQN", "RainbowDQN", "CQN", "DDPG", "TD3", "PPO", "NeuralUCB", "NeuralTS"]
MULTI = ["MADDPG", "MATD3", "IPPO"]
ALL = SINGLE + MULTI
DISCRETE_ALGOS = {"DQN", "RainbowDQN", "CQN", "NeuralUCB", "NeuralTS"}
CONTINUOUS_ALGOS = {"DDPG", "TD3"}
VALUE_BASED = ["DQN", "RainbowDQN", "CQN", "DDPG", "TD3", "MADDPG", "MATD3"]
HAS_SHARE_ENCODERS = {"DDPG", "TD3", "PPO"}
OBS_KINDS = ["vector", "image", "dict", "tuple", "discrete"]
MA_AGENT_IDS = ["agent_0", "agent_1", "other_0"]


def algo_cls(name: str):
    import agilerl.algorithms as A

    return getattr(A, name)


# ------------------------------------------------------------------ spaces
def obs_space(kind: str) -> spaces.Space:
    if kind == "vector":
        return spaces.Box(-1.0, 1.0, (4,), np.float32)
    if kind == "image":
        return spaces.Box(0, 255, (3, 8, 8), np.float32)
    if kind == "dict":
        return spaces.Dict({"img": spaces.Box(0, 255, (3, 8, 8), np.float32), "vec": spaces.Box(-1.0, 1.0, (3,), np.float32)})
    if kind == "tuple":
        return spaces.Tuple((spaces.Box(0, 255, (3, 8, 8), np.float32), spaces.Box(-1.0, 1.0, (3,), np.float32)))
    if kind == "discrete":
        return spaces.Discrete(5)
    if kind == "multidiscrete":
        return spaces.MultiDiscrete([3, 2])
    if kind == "multibinary":
        return spaces.MultiBinary(4)
    raise ValueError(kind)


def act_space(kind: str) -> spaces.Space:
    if kind == "discrete":
        return spaces.Discrete(3)
    if kind == "box":
        return spaces.Box(-1.0, 1.0, (2,), np.float32)
    if kind == "box_asym3":
        # three components: the critics of DDPG / TD3 layer-normalise the action vector when the encoder is a layer-normed
        # MLP, which leaves NO information in a 1-d action and only the ordering of the components in a 2-d one
        return spaces.Box(np.array([-2.0, 0.0, -1.0], np.float32), np.array([0.5, 3.0, 0.25], np.float32), (3,), np.float32)
    if kind == "box_asym":
        return spaces.Box(np.array([-2.0, 0.0], np.float32), np.array([0.5, 3.0], np.float32), (2,), np.float32)
    if kind == "multidiscrete":
        return spaces.MultiDiscrete([3, 2])
    if kind == "multibinary":
        return spaces.MultiBinary(3)
    raise ValueError(kind)


def default_act_kind(algo: str) -> str:
    if algo in DISCRETE_ALGOS:
        return "discrete"
    if algo in CONTINUOUS_ALGOS or algo in ("MADDPG", "MATD3"):
        return "box"
    return "discrete"


def sample_obs(space: spaces.Space, n: Optional[int], rng: np.random.Generator):
    """Random observation(s) from `space` (batch of n if n is not None), numpy, seeded."""

    def one(sp, shape_prefix):
        if isinstance(sp, spaces.Box):
            lo = np.where(np.isfinite(sp.low), sp.low, -2.0)
            hi = np.where(np.isfinite(sp.high), sp.high, 2.0)
            u = rng.random(shape_prefix + sp.shape)
            return (lo + u * (hi - lo)).astype(sp.dtype)
        if isinstance(sp, spaces.Discrete):
            return rng.integers(0, sp.n, size=shape_prefix).astype(np.int64)
        if isinstance(sp, spaces.MultiDiscrete):
            return np.stack([rng.integers(0, k, size=shape_prefix) for k in sp.nvec], axis=-1).astype(np.int64)
        if isinstance(sp, spaces.MultiBinary):
            return rng.integers(0, 2, size=shape_prefix + (sp.n,)).astype(np.int8)
        if isinstance(sp, spaces.Dict):
            return {k: one(s, shape_prefix) for k, s in sp.spaces.items()}
        if isinstance(sp, spaces.Tuple):
            return tuple(one(s, shape_prefix) for s in sp.spaces)
        raise TypeError(sp)

    return one(space, () if n is None else (n,))


# ------------------------------------------------------------------ agents
def make_agent(
    algo: str,
    obs_kind: str = "vector",
    act_kind: Optional[str] = None,
    index: int = 0,
    hp_config: Any = None,
    **kw,
):
    cls = algo_cls(algo)
    act_kind = act_kind or default_act_kind(algo)
    kw.setdefault("batch_size", 8)
    if algo in MULTI:
        ids = kw.pop("agent_ids", list(MA_AGENT_IDS))
        o = [obs_space(obs_kind) for _ in ids]
        a = [act_space(act_kind) for _ in ids]
        return cls(o, a, agent_ids=ids, index=index, hp_config=hp_config, **kw)
    if algo == "RainbowDQN":
        kw.setdefault("num_atoms", 11)
        kw.setdefault("v_min", -5.0)
        kw.setdefault("v_max", 5.0)
    return cls(obs_space(obs_kind), act_space(act_kind), index=index, hp_config=hp_config, **kw)


def nondefault_kwargs(algo: str) -> Dict[str, Any]:
    """Every scalar constructor option of the algorithm at a valid NON-default value (copies and restored agents have to
    carry what the user configured, not the class defaults)."""
    kw: Dict[str, Any] = {"learn_step": 3, "gamma": 0.9, "normalize_images": False}
    if algo in ("DQN", "CQN"):
        kw.update(lr=3e-4, tau=0.2, double=True)
    elif algo == "RainbowDQN":
        kw.update(lr=3e-4, tau=0.2, beta=0.6, prior_eps=1e-4, noise_std=0.3, n_step=2, combined_reward=True)
    elif algo in ("DDPG", "TD3", "MADDPG", "MATD3"):
        kw.update(lr_actor=3e-4, lr_critic=2e-3, tau=0.2, O_U_noise=False, expl_noise=0.3, mean_noise=0.1, theta=0.3, dt=0.02)
        if algo != "MADDPG":
            kw.update(policy_freq=3)
    elif algo in ("PPO", "IPPO"):
        kw.update(lr=3e-4, gae_lambda=0.8, action_std_init=0.4, clip_coef=0.3, ent_coef=0.03, vf_coef=0.7, max_grad_norm=0.9, update_epochs=2)
    elif algo in ("NeuralUCB", "NeuralTS"):
        kw.update(lr=2e-3, gamma=2.0, lamb=0.5, reg=0.01)
    return kw


def unwrap(agent):
    return agent.agent if hasattr(agent, "agent") and not hasattr(type(agent), "registry") else agent


def algo_name(agent) -> str:
    return type(unwrap(agent)).__name__


# ------------------------------------------------------------------ batches
def _to_t(x):
    if isinstance(x, dict):
        return {k: _to_t(v) for k, v in x.items()}
    if isinstance(x, tuple):
        return tuple(_to_t(v) for v in x)
    return torch.as_tensor(np.asarray(x)).float()


def _rand_action(space: spaces.Space, n: int, rng) -> np.ndarray:
    if isinstance(space, spaces.Discrete):
        return rng.integers(0, space.n, size=(n, 1)).astype(np.float32)
    if isinstance(space, spaces.Box):
        lo = np.where(np.isfinite(space.low), space.low, -1.0)
        hi = np.where(np.isfinite(space.high), space.high, 1.0)
        return (lo + rng.random((n,) + space.shape) * (hi - lo)).astype(np.float32)
    if isinstance(space, spaces.MultiDiscrete):
        return np.stack([rng.integers(0, k, size=n) for k in space.nvec], axis=-1).astype(np.float32)
    if isinstance(space, spaces.MultiBinary):
        return rng.integers(0, 2, size=(n, space.n)).astype(np.float32)
    raise TypeError(space)


def make_batch(agent, n: Optional[int] = None, seed: int = 0, done: Optional[np.ndarray] = None) -> Dict[str, Any]:
    """A neutral description of a batch; convert with `as_experiences` for the given agent."""
    a = unwrap(agent)
    rng = np.random.default_rng(seed)
    n = n or a.batch_size
    name = algo_name(agent)
    if name in MULTI:
        b = {"multi": True, "n": n}
        for f in ("obs", "action", "reward", "next_obs", "done"):
            b[f] = {}
        for aid, osp, asp in zip(a.agent_ids, a.observation_spaces, a.action_spaces):
            b["obs"][aid] = sample_obs(osp, n, rng)
            b["next_obs"][aid] = sample_obs(osp, n, rng)
            b["action"][aid] = _rand_action(asp, n, rng)
            b["reward"][aid] = rng.normal(size=(n, 1)).astype(np.float32)
            d = (rng.random((n, 1)) < 0.3).astype(np.float32) if done is None else np.asarray(done, np.float32).reshape(n, 1)
            b["done"][aid] = d
        return b
    d = (rng.random((n, 1)) < 0.3).astype(np.float32) if done is None else np.asarray(done, np.float32).reshape(n, 1)
    return {
        "multi": False,
        "n": n,
        "obs": sample_obs(a.observation_space, n, rng),
        "next_obs": sample_obs(a.observation_space, n, rng),
        "action": _rand_action(a.action_space, n, rng),
        "reward": rng.normal(size=(n, 1)).astype(np.float32),
        "done": d,
    }


def _obs_td(x, n):
    from tensordict import TensorDict

    if isinstance(x, dict):
        return TensorDict({k: torch.as_tensor(np.asarray(v)).float() for k, v in x.items()}, batch_size=[n])
    if isinstance(x, tuple):
        return TensorDict({f"tuple_obs_{i}": torch.as_tensor(np.asarray(v)).float() for i, v in enumerate(x)}, batch_size=[n])
    return torch.as_tensor(np.asarray(x)).float()


def as_experiences(agent, batch: Dict[str, Any]):
    """Fresh tensors every call (several learners write into their inputs in place)."""
    from tensordict import TensorDict

    name = algo_name(agent)
    n = batch["n"]
    if name in ("MADDPG", "MATD3"):
        return tuple(
            {aid: _to_t(copy.deepcopy(v)) for aid, v in batch[f].items()} for f in ("obs", "action", "reward", "next_obs", "done")
        )
    if name in ("TD3", "CQN"):
        return (
            _to_t(copy.deepcopy(batch["obs"])),
            _to_t(batch["action"].copy()),
            _to_t(batch["reward"].copy()),
            _to_t(copy.deepcopy(batch["next_obs"])),
            _to_t(batch["done"].copy()),
        )
    if name in ("NeuralUCB", "NeuralTS"):
        return TensorDict(
            {"obs": _obs_td(copy.deepcopy(batch["obs"]), n), "reward": _to_t(batch["reward"].copy())},
            batch_size=[n],
        )
    return TensorDict(
        {
            "obs": _obs_td(copy.deepcopy(batch["obs"]), n),
            "action": _to_t(batch["action"].copy()),
            "reward": _to_t(batch["reward"].copy()),
            "next_obs": _obs_td(copy.deepcopy(batch["next_obs"]), n),
            "done": _to_t(batch["done"].copy()),
        },
        batch_size=[n],
    )


# ------------------------------------------------------------------ on-policy rollouts (PPO / IPPO)
def ppo_rollout(agent, T: int = 4, num_envs: int = 2, seed: int = 0):
    """Experiences tuple in the format train_on_policy hands to PPO.learn."""
    a = unwrap(agent)
    rng = np.random.default_rng(seed)
    states, actions, log_probs, rewards, dones, values = [], [], [], [], [], []
    done = np.zeros(num_envs, dtype=np.float32)
    st = torch.get_rng_state()
    torch.manual_seed(seed)
    for t in range(T):
        obs = sample_obs(a.observation_space, num_envs, rng)
        act, lp, _, val = a.get_action(obs)
        states.append(obs)
        actions.append(act)
        log_probs.append(lp)
        rewards.append(rng.normal(size=num_envs).astype(np.float32))
        dones.append(done)
        values.append(val)
        done = (rng.random(num_envs) < 0.3).astype(np.float32)
    next_state = sample_obs(a.observation_space, num_envs, rng)
    torch.set_rng_state(st)
    return (states, actions, log_probs, rewards, dones, values, next_state, done)


def ippo_rollout(agent, T: int = 4, num_envs: int = 2, seed: int = 0):
    a = unwrap(agent)
    rng = np.random.default_rng(seed)
    ids = a.agent_ids
    states = {i: [] for i in ids}
    actions = {i: [] for i in ids}
    log_probs = {i: [] for i in ids}
    rewards = {i: [] for i in ids}
    dones = {i: [] for i in ids}
    values = {i: [] for i in ids}
    done = {i: np.zeros(num_envs, dtype=np.float32) for i in ids}
    st = torch.get_rng_state()
    torch.manual_seed(seed)
    for t in range(T):
        obs = {i: sample_obs(sp, num_envs, rng) for i, sp in zip(ids, a.observation_spaces)}
        act, lp, _, val = a.get_action(obs)
        for i in ids:
            states[i].append(obs[i])
            actions[i].append(act[i])
            log_probs[i].append(lp[i])
            rewards[i].append(rng.normal(size=num_envs).astype(np.float32))
            dones[i].append(done[i])
            values[i].append(val[i])
        d = (rng.random(num_envs) < 0.3).astype(np.float32)
        done = {i: d.copy() for i in ids}
    next_state = {i: sample_obs(sp, num_envs, rng) for i, sp in zip(ids, a.observation_spaces)}
    torch.set_rng_state(st)
    return (states, actions, log_probs, rewards, dones, values, next_state, done)


# ------------------------------------------------------------------ uniform entry points
def learn(agent, batch_seed: int = 0, batch: Optional[Dict[str, Any]] = None, rollout=None):
    """One learn step in the algorithm's own format; returns learn()'s return value."""
    name = algo_name(agent)
    if name == "PPO":
        return agent.learn(rollout if rollout is not None else ppo_rollout(agent, seed=batch_seed))
    if name == "IPPO":
        return agent.learn(rollout if rollout is not None else ippo_rollout(agent, seed=batch_seed))
    batch = batch if batch is not None else make_batch(agent, seed=batch_seed)
    exp = as_experiences(agent, batch)
    if name in ("DDPG", "TD3"):
        return agent.learn(exp)
    return agent.learn(exp)


def greedy_action(agent, obs):
    """Deterministic action (exploration off) for a numpy observation batch."""
    name = algo_name(agent)
    a = unwrap(agent)
    if name in ("DQN", "CQN"):
        return agent.get_action(obs, epsilon=0.0)
    if name == "RainbowDQN":
        return agent.get_action(obs, training=False)
    if name in ("DDPG", "TD3"):
        return agent.get_action(obs, training=False)
    if name in ("MADDPG", "MATD3"):
        return agent.get_action(obs, training=False)
    if name in ("NeuralUCB", "NeuralTS"):
        # the real decision path (one context row per arm); it updates sigma_inv, which both sides of a
        # comparison do alike.  The actor's predictions are returned as well.
        st = torch.get_rng_state()
        torch.manual_seed(1234)
        try:
            act = agent.get_action(obs)
        finally:
            torch.set_rng_state(st)
        with torch.no_grad():
            pred = a.actor(a.preprocess_observation(obs)).cpu().numpy()
        return (np.asarray(act), pred)
    if name in ("PPO", "IPPO"):
        # stochastic policies: the public get_action under a fixed RNG state (action, log-prob, entropy, value)
        st = torch.get_rng_state()
        torch.manual_seed(1234)
        try:
            out = agent.get_action(obs)
        finally:
            torch.set_rng_state(st)
        return out
    raise ValueError(name)


def train_action(agent, obs):
    """get_action the way a training loop calls it (exploration on)."""
    name = algo_name(agent)
    if name in ("DQN", "CQN"):
        return agent.get_action(obs, epsilon=0.3)
    if name == "RainbowDQN":
        return agent.get_action(obs, training=True)
    if name in ("DDPG", "TD3", "MADDPG", "MATD3"):
        return agent.get_action(obs, training=True)
    return agent.get_action(obs)


def probe_obs(agent, n: int = 5, seed: int = 123):
    a = unwrap(agent)
    rng = np.random.default_rng(seed)
    if algo_name(agent) in MULTI:
        return {i: sample_obs(sp, n, rng) for i, sp in zip(a.agent_ids, a.observation_spaces)}
    if algo_name(agent) in ("NeuralUCB", "NeuralTS"):
        n = int(a.action_dim)  # a bandit context has one row per arm
    return sample_obs(a.observation_space, n, rng)


def tiny_hp_config(algo: str):
    from agilerl.algorithms.core.registry import HyperparameterConfig, RLParameter

    if algo in ("DDPG", "TD3", "MADDPG", "MATD3"):
        return HyperparameterConfig(
            lr_actor=RLParameter(min=1e-4, max=1e-2),
            lr_critic=RLParameter(min=1e-4, max=1e-2),
            batch_size=RLParameter(min=8, max=64, dtype=int),
            learn_step=RLParameter(min=1, max=16, dtype=int, grow_factor=1.5, shrink_factor=0.75),
        )
    return HyperparameterConfig(
        lr=RLParameter(min=1e-4, max=1e-2),
        batch_size=RLParameter(min=8, max=64, dtype=int),
        learn_step=RLParameter(min=1, max=16, dtype=int, grow_factor=1.5, shrink_factor=0.75),
    )


def to_jsonable_action(x):
    if isinstance(x, dict):
        return {k: to_jsonable_action(v) for k, v in x.items()}
    if isinstance(x, tuple):
        return [to_jsonable_action(v) for v in x]
    return np.asarray(x)


def actions_equal(x, y) -> bool:
    if isinstance(x, dict):
        return set(x) == set(y) and all(actions_equal(x[k], y[k]) for k in x)
    if isinstance(x, (tuple, list)):
        return len(x) == len(y) and all(actions_equal(a, b) for a, b in zip(x, y))
    x, y = np.asarray(x), np.asarray(y)
    if x.shape != y.shape:
        return False
    if np.issubdtype(x.dtype, np.floating) or np.issubdtype(y.dtype, np.floating):
        # same weights, same arithmetic; reduction order may depend on memory layout
        return bool(np.allclose(x, y, rtol=1e-5, atol=1e-6, equal_nan=True))
    return bool(np.array_equal(x, y))
