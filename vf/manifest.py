"""Generates /verif/MANIFEST.json from the table below:  /venv/bin/python vf/manifest.py"""

import json
import os
import subprocess

HERE = os.path.dirname(os.path.dirname(os.path.abspath(__file__)))

SETUP = (
    "/venv/bin/pip install -q --no-index --find-links /opt/veriftools/wheels --target /verif/.deps icontract "
    ">/dev/null 2>&1 || echo 'icontract not installed: invariants fall back to plain wrappers'; "
    "/venv/bin/python -m compileall -q /verif/vf >/dev/null 2>&1; true"
)

BASELINE = json.load(open("/root/.vp/BASELINE.json"))["cmd"] if os.path.exists("/root/.vp/BASELINE.json") else ""

# id -> (built, level, technique, text, note, design_ref)
CHECKS = {
    "C09": (
        True,
        "exploration",
        "history recording at the buffer API + deque reference model with unique-id transitions; icontract class invariants; storage-pointer alias check",
        "Seeded hostile operation sequences (add widths hitting/crossing the end, sample, clear, caller re-use) on the real "
        "ReplayBuffer and MultiAgentReplayBuffer, every state compared with a deque(maxlen=N) of unique ids; held on the "
        "executions produced, not a proof.",
        "Trusts torch/tensordict indexing; transitions built as train_off_policy builds them; widths <= capacity.",
        "DESIGN.md#c09",
    ),
}

NOT_YET = "check not built yet in this round (framework under construction); see DESIGN.md section for the plan"


def main():
    props = [json.loads(l) for l in open(os.path.join(HERE, "properties.jsonl"))]
    checks = []
    na = []
    for p in props:
        pid = p["id"]
        ent = CHECKS.get(pid)
        if ent is None or not ent[0]:
            na.append({"property_id": pid, "reason": NOT_YET if ent is None else ent[4]})
            continue
        _, level, technique, text, note, ref = ent
        checks.append(
            {
                "property_id": pid,
                "quick_cmd": f"./check {pid} --tier quick",
                "thorough_cmd": f"./check {pid} --tier thorough",
                "evidence_file": f"/verif/evidence/{pid}.json",
                "replay_cmd_template": f"./check {pid} --replay {{path}}",
                "engine": "vf",
                "level_claimed": {"category": level, "text": text, "design_ref": ref},
                "level_note": note,
                "technique": technique,
            }
        )
    try:
        commits = subprocess.check_output(
            ["git", "-C", "/repo", "log", "--format=%h %s", "--grep=^hook:"], text=True
        ).strip().splitlines()
    except Exception:
        commits = []
    manifest = {
        "version": 1,
        "setup_cmd": SETUP,
        "hooks": {
            "guard": "AGILERL_VERIF",
            "enable": "checks export AGILERL_VERIF=1; observation is by wrappers / sys.monitoring taps / module-attribute "
            "interposition installed from /verif at run time, the repository carries no hook code unless listed in source_commits",
            "baseline_off_cmd": BASELINE.replace("<file>", "/tmp/agilerl_baseline_off.junit.xml"),
            "source_commits": [c.split()[0] for c in commits],
            "add_only": True,
        },
        "engines": [
            {
                "name": "vf",
                "path": "/verif/vf",
                "serves_properties": [c["property_id"] for c in checks],
                "kind_free_text": "runtime monitoring: boundary wrappers, frame taps (sys.monitoring), reference models, alias "
                "sanitizer for Python object graphs, fault/delay injection for the multiprocess vector env; sharded over 16 forked workers",
            }
        ],
        "checks": checks,
        "not_applicable": na,
        "notes": "Genuine defects repaired in /repo are 'fix:' commits recorded in /verif/known_findings.json; "
        "unrepaired ones are listed there with status=known and printed as KNOWN-FINDING lines.",
    }
    with open(os.path.join(HERE, "MANIFEST.json"), "w") as f:
        json.dump(manifest, f, indent=1)
    try:
        import jsonschema

        jsonschema.validate(manifest, json.load(open("/root/.vp/MANIFEST.schema.json")))
        for c in checks:
            ev = c["evidence_file"]
            if os.path.exists(ev):
                jsonschema.validate(json.load(open(ev)), json.load(open("/root/.vp/EVIDENCE.schema.json")))
        print("manifest + evidence validate;", len(checks), "checks,", len(na), "not applicable")
    except ImportError:
        print("jsonschema not available; wrote manifest without validation")


if __name__ == "__main__":
    main()
