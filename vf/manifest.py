"""Generates /verif/MANIFEST.json from the table below:  /venv/bin/python vf/manifest.py"""

import json
import os
import subprocess

HERE = os.path.dirname(os.path.dirname(os.path.abspath(__file__)))

SETUP = (
    "/venv/bin/pip install -q --no-index --find-links /opt/veriftools/wheels --target /verif/.deps icontract "
    ">/dev/null 2>&1 || echo 'icontract not installed: invariants fall back to plain wrappers'; "
    "/venv/bin/python -m compileall -q /verif/vf >/dev/null 2>&1; true"
)

BASELINE = json.load(open("/root/.vp/BASELINE.json"))["cmd"] if os.path.exists("/root/.vp/BASELINE.json") else ""

# id -> (built, level, technique, text, note, design_ref)
CHECKS = {
    "C09": (
        True,
        "exploration",
        "history recording at the buffer API + deque reference model with unique-id transitions; icontract class invariants; storage-pointer alias check",
        "Seeded hostile operation sequences (add widths hitting/crossing the end, sample, clear, caller re-use) on the real "
        "ReplayBuffer and MultiAgentReplayBuffer, every state compared with a deque(maxlen=N) of unique ids; held on the "
        "executions produced, not a proof.",
        "Trusts torch/tensordict indexing; transitions built as train_off_policy builds them; widths <= capacity.",
        "DESIGN.md#c09",
    ),
    "C01": (
        True,
        "exploration",
        "structural equality walker + alias sanitizer (storage pointers / object identity) + mutation-visibility fingerprints + paired-learn differential on real clone()/Mutations/TournamentSelection",
        "Seeded histories (learn, five mutation kinds, clone, tournament round) on all 11 algorithms x observation families, "
        "then k sibling clones are compared leaf by leaf with the parent (target re-sync exception encoded), probed for "
        "shared memory / shared containers and for cross-agent effects of learn / mutation / discard; held on the "
        "executions produced.",
        "CPU only; accelerate/compile paths not driven; float tolerance for paired updates (moments rel 1e-4, weights 2.1 lr).",
        "DESIGN.md#c01",
    ),
    "C12": (
        True,
        "exploration",
        "history recording at the client boundary + sequential reference loop over scripted PettingZoo envs with self-identifying observations; seeded worker delays; per-scenario forked driver with watchdog",
        "Real AsyncPettingZooVecEnv / auto-reset wrapper driven with seeded action batches; every returned slice compared "
        "with independently stepped reference copies under the statement's reset rule (incl. sub-environments with a seeded "
        "random stream of their own); completion-order diversity measured.",
        "Only the fork start method; scripted envs instead of real games; placeholder values for absent agents not judged.",
        "DESIGN.md#c12",
    ),
    "C15": (
        True,
        "exploration",
        "boundary wrappers on preprocess_observation (all entry points) + numpy reference model + batch-vs-single and agent/env-permutation metamorphic checks on real agents",
        "Every supported space/dtype/input form is prepared by the real code and compared with a reference written from the "
        "statement; greedy actions / values of real DQN, DDPG, TD3, PPO, IPPO, MADDPG, MATD3 agents are compared across "
        "batch compositions and agent/env orderings.",
        "Infinite bounds: documented bypass accepted; deterministic networks only; tolerance 1e-5.",
        "DESIGN.md#c15",
    ),
    "C17": (
        True,
        "exploration",
        "sys.monitoring frame taps inside PPO.learn / IPPO._learn_individual + float64 GAE reference + id-encoded rollouts (row alignment) + metamorphic no-leak runs; learn()-boundary wrapper on the real train_on_policy / train_multi_agent_on_policy loops run on scripted environments with a ground-truth log",
        "Rollouts in the exact training-loop format with injective (agent, env, step) ids in every field; tapped "
        "advantages/returns/bootstrap values and the flattened minibatch rows are decoded and compared with the recursion "
        "of the statement; exhaustive done placements for T<=5.",
        "Taps read locals by name (lost observability => inconclusive, never held); vector and dict observations only.",
        "DESIGN.md#c17",
    ),
    "C07": (
        True,
        "exploration",
        "save/load round trip on agents with seeded histories: strict structural equality walker + paired continuation differential (same batches, same RNG state) for both load paths (load_checkpoint also into existing agents with their own mutations / learn steps / optional constructor values) + independence fingerprint of a second agent restored from the same file while the first trains",
        "Every algorithm x observation family (plus RSNorm-wrapped agents) is saved after a prefix of a seeded history "
        "(learn steps, mutations, clones, tournament rounds) and restored through Algo.load and load_checkpoint; all leaves "
        "incl. target networks, optimizer state and bookkeeping are compared, then original and restored agent learn k more "
        "steps from identical batches.",
        "CPU only; checkpoint metadata attributes and the OptimizerWrapper.lr echo are not compared; float tolerance as C01.",
        "DESIGN.md#c07",
    ),
    "C13": (
        True,
        "fault_enumeration",
        "reference state machine over all interface-call sequences (length<=3/4) + fault plans injected into scripted sub-environments (raise incl. connection-family and 512 KiB payloads / sleep past timeout / kill) with structural dead-lock detection over all threads from /proc and faulthandler",
        "Misuse sequences are enumerated exhaustively up to the bound and compared with the documented error type and with "
        "counter-predicted return values; worker faults are enumerated over command x invocation x worker x kind (single and "
        "double); every scenario runs in its own driver process, hangs are decided structurally (driver blocked in recv/wait "
        "while every worker is dead or blocked), never by a stopwatch.",
        "fork start method only; bounded sequence length; 'promptly' = no dead-lock state and return within the watchdog.",
        "DESIGN.md#c13",
    ),
    "C05": (
        True,
        "exploration",
        "postcondition monitor on TournamentSelection.select with recorded np.random.randint draws (module-attribute interposition) + rank/argmax reference + leaf-wise parent identification + alias sanitizer",
        "Populations of real agents with adversarial fitness histories (ties, negatives, unequal lengths, sparse indices) "
        "go through repeated select() calls; elite, size, per-member parent (best of the recorded draw), index freshness, "
        "old-population fingerprints and old/new aliasing are checked on every call.",
        "Ties accept any maximal agent; identical siblings are interchangeable parents; share_encoders=False agents.",
        "DESIGN.md#c05",
    ),
    "C06": (
        True,
        "exploration",
        "postcondition monitor on Mutations.mutation(rl_hp) with recorded torch.rand/randperm variates (module-attribute interposition) + arithmetic reference from the agent's own previous value + param_groups inspection + constructor-twin differential (the mutated agent must learn like a freshly constructed agent that was given the new values and the same weights / moments; control comparison before the mutation)",
        "All 11 algorithms, populations built from one shared HyperparameterConfig / create_population / after selection, "
        "random and boundary RLParameter ranges, up to 30 consecutive mutation rounds; value, range, number type, single "
        "change, reported name, lr of every optimizer group and non-interference with other agents are checked per mutation; "
        "for gamma, batch_size, learning rates and v_min one learn step of the mutated agent (plain and RSNorm-wrapped) is compared "
        "with the same step of a constructor twin.",
        "Twin comparison only where the agent matched its twin before the mutation; learn_step has no effect inside learn().",
        "DESIGN.md#c06",
    ),
    "C02": (
        True,
        "exploration",
        "postcondition monitor around Mutations.mutation with class-level recording wrappers on the five mutation methods: parameter-identity check of every optimizer, lr check, shared/target network comparison, architecture-delta comparison, act and learn probes",
        "Populations of all 11 algorithms go through generations of (learn, select, mutate) with one-hot / uniform / random "
        "mutation probabilities; after every mutation each agent's optimizers, learning rates, target/shared networks, "
        "sibling eval networks, ability to act, effect of a learn step, population order and reported label are checked.",
        "Kind actually applied is read from recording wrappers; architecture_sync only where components were equal before.",
        "DESIGN.md#c02",
    ),
    "C08": (
        True,
        "exploration",
        "differential monitor around learn(): reference Bellman loss on a deep copy of the pre-step agent, leaf-wise soft-update relation via the module leaf walker, metamorphic twin with scrambled next observations of done transitions; target-policy smoothing noise replayed from the seeded generator; independently randomised online / target weights",
        "DQN/CQN (plain, double), Rainbow (1-step, n-step, PER, combined), DDPG, TD3, MADDPG, MATD3 over gamma, tau, policy "
        "delay, done patterns and consecutive steps, also directly after clone / each mutation kind / checkpoint load; "
        "returned loss, every target parameter and the masking of terminal transitions are checked at every learn step; every "
        "third case learns all its steps from ONE experiences object, multi-agent batches carry per-agent done flags.",
        "Rainbow's loss form is delegated to C18; masking twin only on networks without batch norm; float tolerance 1e-4.",
        "DESIGN.md#c08",
    ),
    "C10": (
        True,
        "exploration",
        "history recording of the raw transition stream with unique ids and identifiable rewards + reference n-step fuser written from the statement; literal copy of train_off_policy's pairing code; exhaustive terminal placements for short streams; learn()-boundary wrapper on the real train_off_policy loop (RainbowDQN, n-step + 1-step buffers) run on an id-encoded scripted environment",
        "Every stored n-step row and its 1-step partner are decoded after every add (also after wrap-around of both buffers) "
        "and compared with the reference fuser; all 2^L terminal placements are enumerated for short streams (sub-space "
        "exhaustive), plus seeded random streams with 1-4 parallel environments; n-step rows gathered after a later draw; the real "
        "train_off_policy with populations of 1-3 agents is observed at the learn() boundary.",
        "A window may be cut shorter when another environment ends inside it (the statement grants this); float32 tolerance.",
        "DESIGN.md#c10",
    ),
    "C11": (
        True,
        "exploration",
        "module-attribute interposition of torch.rand (recorded or fed stratum variates incl. 0 and 1-2^-24) + exact Fraction prefix-sum model deciding every draw + icontract class invariants on both segment trees",
        "Interleavings of add (with wrap), update_priorities (tiny/huge/repeated, (B,) and (B,1)) and sample on capacities "
        "1-20; every draw is decided exactly against the model's prefix sums, weights against the formula, tree roots and "
        "leaves against direct computation after every operation.",
        "Proportionality is decided per variate, not statistically; 1e-5 priority floor is part of the model; clear() not driven.",
        "DESIGN.md#c11",
    ),
    "C14": (
        True,
        "exploration",
        "boundary monitor on get_action of all 11 algorithms: space membership per row, mask arithmetic, greedy optimality against scores captured during the same call (instance-level forward wrapper / frame tap), fed zero variates for the random branches",
        "All action-space kinds x observation kinds x exploration settings; ALL 2^n-1 masks for n<=5 (exhaustive sub-space), "
        "forced ties / +-1e30 network outputs, per-agent masks and env-defined actions for the multi-agent learners; every "
        "returned action is checked for shape, membership, mask legality and (exploration off) optimality among allowed actions; "
        "the same mask object is handed over on consecutive calls, agents may have no legal action in single sub-environments.",
        "PPO/IPPO bounds only in evaluation mode (statement); partly infinite Box bounds and non-ndarray mask forms are information only.",
        "DESIGN.md#c14",
    ),
    "C03": (
        True,
        "exploration",
        "per-edge monitor on real clone-and-mutate steps: forward/finite/shape checks, bound model per module family, rebuild-from-init_dict + strict state-dict load, advertised-effect check; exhaustive BFS of small-bound architecture graphs + seeded long walks",
        "For MLP, SimBa, LSTM, CNN, ResNet the architecture graph under shrunken bounds is explored exhaustively by really "
        "calling the advertised methods on clones (sub-space exhaustive, states/edges reported); all modules and all "
        "networks (Q, Rainbow Q, continuous Q, value, deterministic and stochastic actor) are driven by seeded walks with "
        "default bounds over vector/image/dict/tuple spaces; every edge is checked; 12 % of the walk edges are preceded by a "
        "call the module rejects (wrong keyword / missing layer) on the same clone.",
        "Verdict on clone-and-mutate chains (pattern A, what HPO does); mutations repeated on one object without cloning are information only.",
        "DESIGN.md#c03",
    ),
    "C04": (
        True,
        "exploration",
        "snapshot of named parameters/buffers before each mutation + common-index-box comparison after; bitwise output comparison for no-op mutations and clones; Mutations.reinit_from_mutated differential",
        "Rides on the C03 walks with randomised weights and norm statistics (so fresh initialisation cannot masquerade as "
        "preservation): every parameter present before and after must agree on the common index box, an unchanged "
        "init_dict must give identical outputs, clone() and re-created shared networks must reproduce outputs.",
        "Same chain semantics as C03; eval-mode outputs compared bitwise within one process.",
        "DESIGN.md#c04",
    ),
    "C16": (
        True,
        "exploration",
        "boundary wrappers on EvolvableDistribution/StochasticActor/PPO.evaluate_actions with logits captured during the observed call + float64 numpy oracle (no torch.distributions); real PPO.learn / IPPO.learn re-evaluation observed",
        "Discrete, MultiDiscrete, MultiBinary, Box (incl. shape (1,)), squash on/off, masks incl. all-but-one, log-std "
        "initialisations, random weights, wide spaces (8-12 components), mask buffers re-used and rewritten in place between calls; "
        "returned action support, log-probability, entropy, masked probability and the re-evaluation of stored actions (actor, "
        "evaluate_actions, inside learn) are recomputed independently.",
        "Squashed entropy has no closed form (finiteness only); squashed log-prob checked in tanh coordinates.",
        "DESIGN.md#c16",
    ),
    "C18": (
        True,
        "exploration",
        "sys.monitoring PY_RETURN tap on RainbowDQN._dqn_loss (locals copied from the frame) + float64 per-atom C51 projection reference + metamorphic no-leak pairs; instance taps on the noisy networks' forward with a peer evaluation of the online network inside the target-network tap",
        "Atoms 2-51, several supports incl. non-representable v_max, rewards inside/outside/on atoms, done 0/1, gamma, n-step "
        "1-3 (given to the constructor, assigned afterwards or set by an rl_hp mutation), combined targets: mass, mean, "
        "projection, non-negativity, row isolation, element-wise loss and returned priorities are checked on every tapped "
        "loss evaluation.",
        "Batch size equals agent.batch_size (implementation requirement); a lost local makes the run inconclusive.",
        "DESIGN.md#c18",
    ),
    "C19": (
        True,
        "exploration",
        "postcondition wrapper on get_action accumulating the float64 Gram matrix from independently recomputed gradient features; (re)initialisation events observed on init_params/_reinit_bandit_grads; identity check of exp_layer",
        "NeuralUCB and NeuralTS over context dims, arms, lambda (0.01-10), gamma, masks, sequences of 5-200 decisions interleaved with "
        "learn steps, every mutation kind, clones and checkpoint round trips: sigma_inv @ G == I within a conditioned "
        "tolerance, symmetry, positive definiteness, non-negative bonuses, shape and layer identity after every decision.",
        "Float32 drift tolerance scaled with cond(G); features recomputed on a deep copy taken before the call.",
        "DESIGN.md#c19",
    ),
    "C20": (
        True,
        "exploration",
        "end-to-end runs of the six real train_* loops on instrumented counting environments with passive wrappers on get_action/learn/test/clone/select/mutation/save_checkpoint; per-generation offline check of the recorded event log",
        "Every loop x algorithm x {single, vectorised with num_envs <,=,> learn_step} x memory kind x {HPO on/off} x "
        "{checkpoint on/off} with tiny budgets crossing several generations: crashes, population size/indices, step "
        "accounting against environment counters, budget stop generation, fitness growth, elitism carry-over, checkpoint "
        "coverage and bounded learn progress of the off-policy loops (a ready buffer is learnt from within "
        "2*max(learn_step, num_envs)+num_envs environment steps) are checked.",
        "swap_channels / accelerator / wandb paths not driven; combinations a loop's docstring excludes are probes only.",
        "DESIGN.md#c20",
    ),
}

NOT_YET = "check not built yet in this round (framework under construction); see DESIGN.md section for the plan"


def main():
    props = [json.loads(l) for l in open(os.path.join(HERE, "properties.jsonl"))]
    checks = []
    na = []
    for p in props:
        pid = p["id"]
        ent = CHECKS.get(pid)
        if ent is None or not ent[0]:
            na.append({"property_id": pid, "reason": NOT_YET if ent is None else ent[4]})
            continue
        _, level, technique, text, note, ref = ent
        checks.append(
            {
                "property_id": pid,
                "quick_cmd": f"./check {pid} --tier quick",
                "thorough_cmd": f"./check {pid} --tier thorough",
                "evidence_file": f"/verif/evidence/{pid}.json",
                "replay_cmd_template": f"./check {pid} --replay {{path}}",
                "engine": "vf",
                "level_claimed": {"category": level, "text": text, "design_ref": ref},
                "level_note": note,
                "technique": technique,
            }
        )
    try:
        commits = subprocess.check_output(
            ["git", "-C", "/repo", "log", "--format=%h %s", "--grep=^hook:"], text=True
        ).strip().splitlines()
    except Exception:
        commits = []
    manifest = {
        "version": 1,
        "setup_cmd": SETUP,
        "hooks": {
            "guard": "AGILERL_VERIF",
            "enable": "checks export AGILERL_VERIF=1; observation is by wrappers / sys.monitoring taps / module-attribute "
            "interposition installed from /verif at run time, the repository carries no hook code unless listed in source_commits",
            "baseline_off_cmd": BASELINE.replace("<file>", "/tmp/agilerl_baseline_off.junit.xml"),
            "source_commits": [c.split()[0] for c in commits],
            "add_only": True,
        },
        "engines": [
            {
                "name": "vf",
                "path": "/verif/vf",
                "serves_properties": [c["property_id"] for c in checks],
                "kind_free_text": "runtime monitoring: boundary wrappers, frame taps (sys.monitoring), reference models, alias "
                "sanitizer for Python object graphs, fault/delay injection for the multiprocess vector env; sharded over 16 forked workers",
            }
        ],
        "checks": checks,
        "not_applicable": na,
        "notes": "Genuine defects repaired in /repo are 'fix:' commits recorded in /verif/known_findings.json; "
        "unrepaired ones are listed there with status=known and printed as KNOWN-FINDING lines.",
    }
    with open(os.path.join(HERE, "MANIFEST.json"), "w") as f:
        json.dump(manifest, f, indent=1)
    try:
        import jsonschema

        jsonschema.validate(manifest, json.load(open("/root/.vp/MANIFEST.schema.json")))
        for c in checks:
            ev = c["evidence_file"]
            if os.path.exists(ev):
                jsonschema.validate(json.load(open(ev)), json.load(open("/root/.vp/EVIDENCE.schema.json")))
        print("manifest + evidence validate;", len(checks), "checks,", len(na), "not applicable")
    except ImportError:
        print("jsonschema not available; wrote manifest without validation")


if __name__ == "__main__":
    main()
