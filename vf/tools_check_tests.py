"""Run some of the repository's own tests in a scratch tree and compare with the pinned baseline.

    /venv/bin/python /verif/vf/tools_check_tests.py <tree> [-n 4] <pytest paths / -k expr ...>

Runs pytest from <tree> (cwd = <tree>, PYTHONPATH = <tree>) with a junit report, then reports for the tests of
/root/.vp/BASELINE.json["stable_pass"] that were selected by this run: how many passed, which did not.
Exit 0 iff every selected pinned-stable test passed (non-pinned failures are listed but do not count).
"""

import json
import os
import subprocess
import sys
import tempfile
import xml.etree.ElementTree as ET


def main():
    args = sys.argv[1:]
    tree = os.path.abspath(args[0])
    rest = args[1:]
    n = "4"
    if rest and rest[0] == "-n":
        n = rest[1]
        rest = rest[2:]
    base = json.load(open("/root/.vp/BASELINE.json"))
    stable = set(base["stable_pass"])
    fd, junit = tempfile.mkstemp(suffix=".junit.xml")
    os.close(fd)
    env = dict(os.environ, PYTHONPATH=tree, OMP_NUM_THREADS="1", MKL_NUM_THREADS="1", WANDB_MODE="disabled")
    cmd = ["/venv/bin/python", "-m", "pytest", "-q", "-p", "no:cacheprovider", "--timeout=900", "--continue-on-collection-errors",
           "-n", n, f"--junitxml={junit}"] + rest
    p = subprocess.run(cmd, cwd=tree, env=env, stdout=subprocess.PIPE, stderr=subprocess.STDOUT, text=True)
    tail = p.stdout.strip().splitlines()[-3:]
    sel, ok, bad, other_bad = 0, 0, [], []
    try:
        root = ET.parse(junit).getroot()
        for tc in root.iter("testcase"):
            name = f"{tc.get('classname')}::{tc.get('name')}"
            failed = any(ch.tag in ("failure", "error") for ch in tc)
            skipped = any(ch.tag == "skipped" for ch in tc)
            if name in stable:
                sel += 1
                if failed or skipped:
                    bad.append(name)
                else:
                    ok += 1
            elif failed:
                other_bad.append(name)
    finally:
        os.unlink(junit)
    print("pytest:", " | ".join(tail))
    print(f"stable_pass selected={sel} passed_of_those={ok}")
    for b in bad[:30]:
        print("  PINNED TEST NOT PASSING:", b)
    if other_bad:
        print(f"  ({len(other_bad)} non-pinned failures, e.g. {other_bad[:3]})")
    sys.exit(0 if (sel > 0 and not bad) else 1)


if __name__ == "__main__":
    main()
