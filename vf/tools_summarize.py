"""Summarise the violating witnesses of the last run: python vf/tools_summarize.py C01 [extra_field ...]"""
import json, sys, collections
prop = sys.argv[1]; extra = sys.argv[2:]
c = collections.Counter(); ex = {}
for line in open(f"/verif/evidence/.work/{prop}-violations.jsonl"):
    r = json.loads(line); w = r["witness"]
    key = (w["monitor"], w["kind"], w["site"], w.get("algo")) + tuple(str(w.get(e, r["case"].get(e))) for e in extra)
    c[key] += 1; ex.setdefault(key, (r["case"], {k: v for k, v in w.items() if k not in ("monitor","kind","site","tb")}))
for k, n in sorted(c.items(), key=lambda kv: str(kv[0])):
    print(n, k); print("    ", json.dumps(ex[k][0])[:300]); print("    ", json.dumps(ex[k][1])[:400])
