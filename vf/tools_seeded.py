"""Confirm a seeded regression and run checks against it.

    /venv/bin/python vf/tools_seeded.py <ID> <n> [--props C01,C05] [--tier quick] [--tests tests/test_hpo ...]

Reads /tmp/seeded_out/<ID>/<n>/{patch.diff,demo.py,notes.md} (produced by an independent sub-agent that saw only the
property text), then
  1. makes a scratch copy of /repo's working tree (tracked files) under /tmp/scr_seed_<ID>_<n>,
  2. runs demo.py on the clean copy (must exit 0), applies the patch, runs demo.py again (must exit != 0),
  3. optionally runs the given repo test files in the patched copy against BASELINE stable_pass,
  4. runs ./check <prop> --tier <tier> with AGILERL_SRC pointing at the patched copy, for every listed property,
  5. writes /verif/seeded/<ID>-<n>/{patch.diff,demo.py,meta.json} and removes the scratch copy.
Nothing is ever applied to /repo itself.
"""

import json
import os
import shutil
import subprocess
import sys
import time

VERIF = os.path.dirname(os.path.dirname(os.path.abspath(__file__)))


def sh(cmd, cwd=None, env=None, timeout=3600):
    p = subprocess.run(cmd, cwd=cwd, env=env, stdout=subprocess.PIPE, stderr=subprocess.STDOUT, text=True, timeout=timeout)
    return p.returncode, p.stdout


def main():
    args = sys.argv[1:]
    ID, n = args[0], args[1]
    props, tier, tests = [ID], "quick", []
    i = 2
    while i < len(args):
        if args[i] == "--props":
            props = args[i + 1].split(",")
            i += 2
        elif args[i] == "--tier":
            tier = args[i + 1]
            i += 2
        elif args[i] == "--tests":
            tests = args[i + 1 :]
            break
        else:
            i += 1
    src = f"/tmp/seeded_out/{ID}/{n}"
    scr = f"/tmp/scr_seed_{ID}_{n}"
    shutil.rmtree(scr, ignore_errors=True)
    os.makedirs(scr)
    # tracked files of /repo's working tree (tests included, demo programs may import test helpers)
    rc, out = sh(["bash", "-c", f"cd /repo && git ls-files -z | rsync -a --from0 --files-from=- /repo/ {scr}/"])
    assert rc == 0, out
    env = dict(os.environ, PYTHONPATH=scr, PYTHONHASHSEED="0")
    meta = {"property": ID, "n": int(n), "repo_commit": sh(["git", "-C", "/repo", "rev-parse", "--short", "HEAD"])[1].strip()}
    meta["notes"] = open(os.path.join(src, "notes.md")).read() if os.path.exists(os.path.join(src, "notes.md")) else ""
    t0 = time.time()
    rc_clean, out_clean = sh(["/venv/bin/python", os.path.join(src, "demo.py")], cwd=scr, env=env, timeout=900)
    rc, out = sh(["git", "apply", "--unsafe-paths", "--directory", scr, os.path.join(src, "patch.diff")], cwd="/")
    if rc != 0:
        rc, out = sh(["patch", "-p1", "-d", scr, "-i", os.path.join(src, "patch.diff")])
    meta["patch_applies"] = rc == 0
    if rc != 0:
        print("PATCH DOES NOT APPLY:\n", out)
    rc_mut, out_mut = sh(["/venv/bin/python", os.path.join(src, "demo.py")], cwd=scr, env=env, timeout=900)
    meta["demo"] = {"clean_exit": rc_clean, "patched_exit": rc_mut, "patched_tail": out_mut.strip().splitlines()[-3:], "wall_s": round(time.time() - t0, 1)}
    print(f"demo: clean exit={rc_clean} patched exit={rc_mut}")
    if tests:
        rc, out = sh(["/venv/bin/python", os.path.join(VERIF, "vf", "tools_check_tests.py"), scr, "-n", "6"] + tests, timeout=7200)
        meta["stable_tests"] = {"paths": tests, "exit": rc, "tail": out.strip().splitlines()[-6:]}
        print("stable tests:", rc, out.strip().splitlines()[-3:])
    meta["checks"] = {}
    for p in props:
        t1 = time.time()
        e = dict(os.environ, AGILERL_SRC=scr)
        rc, out = sh([os.path.join(VERIF, "check"), p, "--tier", tier], cwd=VERIF, env=e, timeout=7200)
        lines = out.strip().splitlines()
        wit = [l for l in lines if l.strip().startswith("witness:")][:3]
        summ = [l for l in lines if l.startswith(f"[{p}] tier")]
        meta["checks"][p] = {
            "tier": tier,
            "exit": rc,
            "detected": rc == 1,
            "summary": summ[-1] if summ else "",
            "first_witnesses": [w[:400] for w in wit],
            "wall_s": round(time.time() - t1, 1),
        }
        print(p, "exit", rc, summ[-1] if summ else "", *(w[:220] for w in wit[:2]), sep="\n   ")
    dst = os.path.join(VERIF, "seeded", f"{ID}-{n}")
    os.makedirs(dst, exist_ok=True)
    for f in ("patch.diff", "demo.py", "notes.md"):
        if os.path.exists(os.path.join(src, f)):
            shutil.copy(os.path.join(src, f), os.path.join(dst, f))
    old = {}
    if os.path.exists(os.path.join(dst, "meta.json")):
        old = json.load(open(os.path.join(dst, "meta.json")))
    hist = old.get("history", [])
    if old.get("checks"):
        hist.append({"checks": old["checks"], "repo_commit": old.get("repo_commit")})
    meta["history"] = hist[-5:]
    meta["what_was_run"] = (
        "scratch copy of /repo tracked files; demo.py on clean and on patched copy; stable-test comparison on the listed "
        "test paths; ./check <prop> --tier <tier> with AGILERL_SRC=<patched copy>; scratch copy removed afterwards"
    )
    json.dump(meta, open(os.path.join(dst, "meta.json"), "w"), indent=1)
    shutil.rmtree(scr, ignore_errors=True)
    # evidence files were rewritten by runs against the scratch copy: they are not evidence for /repo
    print("NOTE: re-run the affected checks on /repo before committing evidence:", ",".join(props))


if __name__ == "__main__":
    main()
