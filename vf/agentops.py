"""Shared agent-level workload pieces: histories (learn / mutate / clone / select), RNG bracketing,
clone-faithfulness comparison, independence probes.  Used by C01, C02, C05, C07, C08, C19."""

from __future__ import annotations

import copy
import random
from typing import Any, Dict, List, Optional, Tuple

import numpy as np
import torch

from vf import walk, zoo

MUT_KINDS = ["none", "arch", "param", "act", "rl_hp"]
HISTORY_OPS = ["learn", "act", "mut:arch", "mut:param", "mut:act", "mut:rl_hp", "mut:none", "clone", "select"]


# ------------------------------------------------------------------ RNG
def rng_state():
    return (torch.get_rng_state(), np.random.get_state(), random.getstate())


def set_rng_state(st) -> None:
    torch.set_rng_state(st[0])
    np.random.set_state(st[1])
    random.setstate(st[2])


def seed_all(seed: int) -> None:
    torch.manual_seed(seed)
    np.random.seed(seed % (2**32))
    random.seed(seed)


# ------------------------------------------------------------------ mutations
def make_mutations(kind: Optional[str] = None, seed: int = 0, probs: Optional[List[float]] = None, **kw):
    """Mutations object; kind one-hot over (none, arch, param, act, rl_hp) or explicit probability vector."""
    from agilerl.hpo.mutation import Mutations

    if probs is None:
        probs = [1.0 if k == kind else 0.0 for k in MUT_KINDS]
    st = rng_state()  # the constructor reseeds the global RNGs; keep the caller's streams
    m = Mutations(
        no_mutation=probs[0],
        architecture=probs[1],
        new_layer_prob=kw.pop("new_layer_prob", 0.3),
        parameters=probs[2],
        activation=probs[3],
        rl_hp=probs[4],
        mutation_sd=kw.pop("mutation_sd", 0.1),
        rand_seed=seed,
        **kw,
    )
    set_rng_state(st)
    return m


def apply_history(agent, ops: List[str], seed: int, rec=None):
    """Applies ops to the agent (continuing on clones where the op says so). Returns the resulting agent."""
    from agilerl.hpo.tournament import TournamentSelection

    for i, op in enumerate(ops):
        s = seed * 1000 + i
        if op == "learn":
            seed_all(s)
            zoo.learn(agent, batch_seed=s)
        elif op.startswith("mut:"):
            kind = op.split(":", 1)[1]
            m = make_mutations(kind, seed=s % 100000)
            seed_all(s)
            agent = m.mutation([agent], pre_training_mut=False)[0]
        elif op == "act":
            # acting in training mode is part of an agent's life: it advances observation-normalisation statistics
            # (RSNorm), bandit confidence matrices, exploration-noise state, batch-norm statistics ...
            seed_all(s)
            zoo.unwrap(agent).set_training_mode(True)
            obs = zoo.probe_obs(agent, 4, seed=s % 9973)
            zoo.train_action(agent, obs)
        elif op == "clone":
            agent = agent.clone()
        elif op == "select":
            seed_all(s)
            other = agent.clone(index=zoo.unwrap(agent).index + 1)
            zoo.unwrap(agent).fitness.append(float(i))
            zoo.unwrap(other).fitness.append(float(i) - 1.0)
            ts = TournamentSelection(tournament_size=2, elitism=True, population_size=2, eval_loop=1)
            _, newpop = ts.select([agent, other])
            agent = newpop[-1]
        else:
            raise ValueError(op)
        if rec is not None:
            rec.hit("history_ops")
    return agent


def random_history(rng: np.random.Generator, max_len: int, algo: str) -> List[str]:
    n = int(rng.integers(0, max_len + 1))
    ops = []
    for _ in range(n):
        r = rng.random()
        if r < 0.3:
            ops.append("learn")
        elif r < 0.45:
            ops.append("act")
        elif r < 0.8:
            ops.append("mut:" + MUT_KINDS[int(rng.integers(1, len(MUT_KINDS)))])
        elif r < 0.9:
            ops.append("clone")
        else:
            ops.append("select")
    return ops


# ------------------------------------------------------------------ registry helpers
def eval_and_shared(agent) -> Tuple[List[str], List[str]]:
    a = zoo.unwrap(agent)
    evals, shared = [], []
    for g in a.registry.groups:
        evals.append(g.eval)
        if g.shared is not None:
            sh = g.shared if isinstance(g.shared, list) else [g.shared]
            for s in sh:
                if isinstance(s, list):
                    shared.extend(s)
                else:
                    shared.append(s)
    return evals, shared


def _root(path: str) -> str:
    return path.split("/")[0].split("[")[0]


def compare_copy(
    A: walk.Leaves,
    B: walk.Leaves,
    agent_b,
    allow_target_resync: bool,
    ignore: Tuple[str, ...] = (),
) -> Tuple[List[Dict[str, Any]], int]:
    """Differences between original A and copy B.  With allow_target_resync, a differing leaf of a
    shared/target attribute of B is accepted when it equals the same-named leaf of one of B's eval networks
    (the statement: 'an algorithm that re-synchronises its target network with its online network on every
    copy may differ in that target only').  Returns (real differences, number of resync exceptions used)."""
    diffs = walk.diff(A, B, ignore=ignore)
    if not allow_target_resync or not diffs:
        return diffs, 0
    evals, shared = eval_and_shared(agent_b)
    a = zoo.unwrap(agent_b)
    # attributes that mirror targets (DQN keeps TensorDicts `target_params` / `param_vals`)
    mirror = {k for k, v in vars(a).items() if type(v).__name__ == "TensorDict"}
    out, used = [], 0
    for d in diffs:
        p = d["path"]
        r = _root(p)
        if (r in shared or r in mirror) and d["what"] == "differs" and "/init_dict" not in p:
            sub = p.split("/", 1)[1] if "/" in p else ""
            idx = p.split("/")[0][len(r):]  # e.g. "[1]" for module lists
            ok = False
            for e in evals:
                cand = f"{e}{idx}/{sub}"
                if cand in B.values and walk.same(B.values[cand], B.values[p]):
                    ok = True
                    break
            if ok:
                used += 1
                continue
        out.append(d)
    return out, used


STATEMENT_ALIAS_CATEGORIES = {
    "network_weights",
    "optimizer_state",
    "hyperparameter_ranges_or_registry",
    "score_or_step_lists",
}


def classify_aliases(al: List[Dict[str, Any]]) -> Tuple[List[Dict[str, Any]], List[Dict[str, Any]]]:
    """Split structural aliases into those the statement names (weights, optimizer moments / step
    counters, hyperparameter ranges, score lists) and others (configs, spaces ...)."""
    named, other = [], []
    for x in al:
        c1, c2 = walk.alias_category(x["first"]), walk.alias_category(x["second"])
        x = dict(x, category=c1 if c1 in STATEMENT_ALIAS_CATEGORIES else c2)
        if c1 in STATEMENT_ALIAS_CATEGORIES or c2 in STATEMENT_ALIAS_CATEGORIES:
            named.append(x)
        else:
            other.append(x)
    return named, other


def changed_paths(before: Dict[str, str], after: Dict[str, str]) -> List[str]:
    keys = set(before) | set(after)
    return sorted(k for k in keys if before.get(k) != after.get(k))
